// C17 — appendable files behave as a persistent byte log.
//
// singleapp.AppendableFile and multiapp.MultiFileAppendable are driven through
// the appendable.Appendable interface by generated operation histories and
// compared, after every step, with an in-memory byte slice.
package c17

import (
	"bytes"
	"errors"
	"fmt"
	"io"
	"os"
	"path/filepath"
	"sync"
	"sync/atomic"
	"testing"

	"github.com/codenotary/immudb/embedded/appendable"
	"github.com/codenotary/immudb/embedded/appendable/multiapp"
	"github.com/codenotary/immudb/embedded/appendable/singleapp"
	"github.com/codenotary/immudb/embedded/cache"
	"pgregory.net/rapid"

	"verif/internal/vk"
)

const (
	kfK3   = "K3-rewind-not-persisted-stale-suffix"
	kfF17  = "F17-singleapp-readat-stale-file-bytes"
	kfMeta = "K17m-large-metadata-lost-on-reopen"
	kfComp = "K17c-compressed-multiapp-offset-not-size"
	kfRace = "K17r-multiapp-read-key-not-found-on-eviction"
	kfRot  = "K17x-multiapp-read-served-by-next-chunk-during-rotation"
	kfCls  = "K17y-multiapp-active-chunk-handle-closed-under-reader"
)

func TestMain(m *testing.M) {
	vk.Main(m, vk.Config{
		Property: "C17",
		Rule: "rapid-generated histories of append/read/set-offset/flush/sync/discard/switch-read-only/close+reopen/copy/sequential-reader/" +
			"concurrent-readers over a real singleapp or multiapp (chunk size 4-512 B, write buffer 1-64 B, retryable-sync x auto-sync, " +
			"prealloc, max-opened-files 1-3, read-ahead 0/2, metadata 0-3000 B), every step compared with a byte-slice model; a second " +
			"history generator for the four compression formats (entry-addressed); a bounded-exhaustive enumeration of all op sequences " +
			"up to a fixed length on tiny configurations. Non-trivial: the history contains a rewind below an explicitly flushed offset " +
			"followed by an append that ends before the old end, or an append touching >=3 chunks, or a close+reopen in the middle of the " +
			"history, i.e. followed by further operations (every history additionally ends with a close+reopen+compare, which does not " +
			"count); for compressed histories: a mid-history reopen or a rewind followed by an append. Distinct by hash of " +
			"(configuration, op tokens with arguments).",
		Assumptions: []string{
			"callers never rewind (SetOffset) below a DiscardUpto mark and never read below it (the chunk files are gone; behaviour undocumented)",
			"reads that start beyond the logical end are only generated when no stale/preallocated bytes can follow the end",
			"with preallocation the reopened size is only required to be >= the logical size (property text) and the harness then calls SetOffset(size), as every immudb client does after open",
			"compressed appendables: reads and rewinds only at entry offsets; retryable-sync without auto-sync (ErrBufferFull in the middle of an entry) and preallocation are not combined with compression",
			"ErrBufferFull (retryable-sync without auto-sync) is legal only if more bytes than the buffer holds were appended since the last Sync; the harness then calls Sync and appends the rest",
			"concurrent readers only read bytes that existed when the step started (no concurrent read-ahead past the end) and run only during appends, never during rewinds/discards",
			"NOT IMPLEMENTED: injected write/fsync errors inside singleapp (the os.File is not reachable without a source hook; hook_needed is null), remoteapp-backed chunks, ReplaceCachedChunk",
			"negative offsets, nil/empty buffers and other argument errors are not part of the property and only spot-checked where the unit tests document them",
		},
		Probes: []vk.Probe{
			{ID: kfK3, Present: probeK3},
			{ID: kfF17, Present: probeF17},
			{ID: kfMeta, Present: probeMeta},
			{ID: kfComp, Present: probeComp},
			{ID: kfRace, Present: probeRace},
			{ID: kfRot, Present: probeRot},
			{ID: kfCls, Present: probeClosed},
		},
	})
}

func removeAll(p string) { os.RemoveAll(p) }

// ---------------------------------------------------------------------------
// pinned probes

// probeK3: SetOffset only moves the logical head. (a) multiapp: a read at/after the
// rewound end that falls into a chunk written before the rewind returns the stale
// bytes; (b) close+reopen reports the stale larger size (both implementations).
func probeK3() (bool, string) {
	dir := vk.Dir()
	defer removeAll(dir)
	m, err := multiapp.Open(filepath.Join(dir, "m"), multiapp.DefaultOptions().WithFileSize(16))
	if err != nil {
		return false, ""
	}
	m.Append(bytes.Repeat([]byte{1}, 40))
	m.Flush()
	m.SetOffset(10)
	b := make([]byte, 8)
	n, rerr := m.ReadAt(b, 16)
	m.Close()
	m, err = multiapp.Open(filepath.Join(dir, "m"), multiapp.DefaultOptions().WithFileSize(16))
	if err != nil {
		return true, "reopen after rewind failed: " + err.Error()
	}
	msz, _ := m.Size()
	m.Close()

	s, err := singleapp.Open(filepath.Join(dir, "s"), singleapp.DefaultOptions())
	if err != nil {
		return false, ""
	}
	s.Append(bytes.Repeat([]byte{1}, 100))
	s.Flush()
	s.SetOffset(50)
	s.Close()
	s, err = singleapp.Open(filepath.Join(dir, "s"), singleapp.DefaultOptions())
	if err != nil {
		return true, "reopen after rewind failed: " + err.Error()
	}
	ssz, _ := s.Size()
	s.Close()
	if n != 0 || rerr != io.EOF || msz != 10 || ssz != 50 {
		return true, fmt.Sprintf("multiapp(fileSize 16): append 40, flush, SetOffset(10): ReadAt(8 bytes @16)=(%d,%v) want (0,EOF); reopen Size()=%d want 10; singleapp: append 100, flush, SetOffset(50), reopen Size()=%d want 50", n, rerr, msz, ssz)
	}
	return false, ""
}

// probeF17 (fixed by 0b571a9): after a rewind below the flushed offset, a read spanning the
// flushed/buffered boundary was served from the file only and returned the old bytes.
func probeF17() (bool, string) {
	dir := vk.Dir()
	defer removeAll(dir)
	s, err := singleapp.Open(filepath.Join(dir, "s"), singleapp.DefaultOptions())
	if err != nil {
		return false, ""
	}
	defer s.Close()
	s.Append([]byte("AAAAAAAAAA"))
	s.Flush()
	s.SetOffset(4)
	s.Append([]byte("BB"))
	b := make([]byte, 4)
	n, err := s.ReadAt(b, 2)
	if n != 4 || err != nil || string(b) != "AABB" {
		return true, fmt.Sprintf("append 10xA, flush, SetOffset(4), append BB, ReadAt(4 bytes @2) = (%q,%d,%v) want AABB", b[:n], n, err)
	}
	return false, ""
}

// probeMeta: metadata longer than what one bufio fill returns is read back short on reopen.
func probeMeta() (bool, string) {
	dir := vk.Dir()
	defer removeAll(dir)
	md := bytes.Repeat([]byte{7}, 5000)
	p := filepath.Join(dir, "s")
	s, err := singleapp.Open(p, singleapp.DefaultOptions().WithMetadata(md))
	if err != nil {
		return false, ""
	}
	s.Append([]byte("x"))
	s.Close()
	s, err = singleapp.Open(p, singleapp.DefaultOptions())
	if err != nil {
		return true, "reopen of a file created with 5000 bytes of metadata: " + err.Error()
	}
	defer s.Close()
	if got := s.Metadata(); !bytes.Equal(got, md) {
		i := 0
		for i < len(got) && i < len(md) && got[i] == md[i] {
			i++
		}
		return true, fmt.Sprintf("singleapp created with 5000 bytes of metadata (all 0x07), closed, reopened: Metadata() has %d bytes and differs from byte %d on", len(got), i)
	}
	return false, ""
}

// probeComp: with compression a multiapp entry is never split, the chunk grows past fileSize and the next
// append is placed at the next chunk base, below the size just reported.
func probeComp() (bool, string) {
	dir := vk.Dir()
	defer removeAll(dir)
	m, err := multiapp.Open(filepath.Join(dir, "m"), multiapp.DefaultOptions().WithFileSize(32).WithCompressionFormat(appendable.ZLibCompression))
	if err != nil {
		return false, ""
	}
	defer m.Close()
	d := []byte("entry-0-abcdefghijklmnopqrstuvwxyz0123456789")
	m.Append(d)
	sz, _ := m.Size()
	off, _, err := m.Append(d)
	if err != nil || off != sz {
		return true, fmt.Sprintf("multiapp(fileSize 32, zlib): after one 44-byte entry Size()=%d, the next Append returns off=%d err=%v", sz, off, err)
	}
	return false, ""
}

// probeRace: appendableFor re-reads the chunk cache after the (singleflight) open without holding the
// lock in between; when another reader, the writer's chunk rotation or a read-ahead goroutine evicts the
// entry in that window the read fails with cache.ErrKeyNotFound. Schedule dependent: the probe runs 4
// readers over 7 chunks with MaxOpenedFiles=1 until the error shows up (normally within ~50 reads),
// giving up after 120000 reads.
func probeRace() (bool, string) {
	dir := vk.Dir()
	defer removeAll(dir)
	m, err := multiapp.Open(filepath.Join(dir, "m"), multiapp.DefaultOptions().WithFileSize(8).WithMaxOpenedFiles(1))
	if err != nil {
		return false, ""
	}
	defer m.Close()
	m.Append(content(1, 64))
	m.Flush()
	var found, reads atomic.Int64
	var wg sync.WaitGroup
	for g := 0; g < 4; g++ {
		g := g
		wg.Add(1)
		go func() {
			defer wg.Done()
			b := make([]byte, 4)
			for i := 0; i < 30000 && found.Load() == 0; i++ {
				_, err := m.ReadAt(b, int64(((i+g)%7)*8))
				reads.Add(1)
				if errors.Is(err, cache.ErrKeyNotFound) {
					found.Add(1)
				}
			}
		}()
	}
	wg.Wait()
	if found.Load() > 0 {
		return true, fmt.Sprintf("multiapp(fileSize 8, maxOpenedFiles 1) holding 64 flushed bytes, 4 goroutines reading 4 bytes at the start of chunks 0..6: ReadAt failed with %q (after %d reads in this run)", cache.ErrKeyNotFound.Error(), reads.Load())
	}
	return false, ""
}

// probeRot: appendableFor evaluates `return mf.currApp` after mf.mutex.Unlock(); when the appender rotates
// to the next chunk in between (likely once the starved appender gets the mutex handed over), the read of
// the chunk that was active is executed on the new chunk: wrong bytes or a spurious EOF. Schedule
// dependent: see rotationStress (normally a few hundred to a few thousand appends are enough, also on a
// loaded machine).
func probeRot() (bool, string) {
	rotationStress()
	return rotWrong != "", rotWrong
}

// probeClosed: the handle appendableFor returns for the active chunk is the writer's own (not reference
// counted). Once the appender has rotated away from that chunk it sits in the handle cache with no
// reference, and the next eviction (a further rotation, or any other reader opening a chunk) closes it
// under the reader, whose ReadAt then fails with singleapp.ErrAlreadyClosed. Same stress run as K17x.
func probeClosed() (bool, string) {
	rotationStress()
	return rotClosed != "", rotClosed
}

var (
	rotOnce             sync.Once
	rotWrong, rotClosed string
)

// rotationStress: chunk size 1 (every append rotates), 2 cached handles, one appender, 32 goroutines
// reading the newest byte. Runs until both symptoms were seen (at most 4000 more appends after the
// first one) or 40000 appends were made.
func rotationStress() {
	rotOnce.Do(func() {
		dir := vk.Dir()
		defer removeAll(dir)
		m, err := multiapp.Open(filepath.Join(dir, "m"), multiapp.DefaultOptions().WithFileSize(1).WithMaxOpenedFiles(2).WithWriteBufferSize(16))
		if err != nil {
			return
		}
		defer m.Close()
		posByte := func(i int64) byte { return byte(i*131+7) | 1 }
		var size, nWrong, nClosed atomic.Int64
		var dWrong, dClosed atomic.Value
		stop := make(chan struct{})
		var wg sync.WaitGroup
		for g := 0; g < 32; g++ {
			wg.Add(1)
			go func() {
				defer wg.Done()
				b := make([]byte, 1)
				for {
					select {
					case <-stop:
						return
					default:
					}
					s := size.Load()
					if s == 0 {
						continue
					}
					n, err := m.ReadAt(b, s-1)
					switch {
					case errors.Is(err, cache.ErrKeyNotFound): // K17r
					case errors.Is(err, singleapp.ErrAlreadyClosed):
						if nClosed.Add(1) == 1 {
							dClosed.Store(fmt.Sprintf("ReadAt(1 byte @%d) = (%d,%v)", s-1, n, err))
						}
					case err == io.EOF || (err == nil && (n != 1 || b[0] != posByte(s-1))):
						if nWrong.Add(1) == 1 {
							dWrong.Store(fmt.Sprintf("ReadAt(1 byte @%d) = (%x,%d,%v), the byte appended there is %x", s-1, b[:n], n, err, posByte(s-1)))
						}
					}
				}
			}()
		}
		var i, firstAt int64
		for i = 0; i < 40000; i++ {
			w, c := nWrong.Load() > 0, nClosed.Load() > 0
			if w && c {
				break
			}
			if (w || c) && firstAt == 0 {
				firstAt = i + 1
			}
			if firstAt > 0 && i > firstAt+4000 {
				break
			}
			if _, _, err := m.Append([]byte{posByte(i)}); err != nil {
				break
			}
			size.Store(i + 1)
		}
		close(stop)
		wg.Wait()
		const setup = "multiapp(fileSize 1, maxOpenedFiles 2), one goroutine appending single bytes, 32 goroutines reading the newest byte: "
		if nWrong.Load() > 0 {
			rotWrong = fmt.Sprintf("%s%v (%d appends in this run)", setup, dWrong.Load(), i)
		}
		if nClosed.Load() > 0 {
			rotClosed = fmt.Sprintf("%s%v (%d appends in this run)", setup, dClosed.Load(), i)
		}
	})
}

// ---------------------------------------------------------------------------
// configuration

type cfg struct {
	Multi     bool
	FileSize  int // multi: chunk size
	WBuf      int
	Retryable bool
	AutoSync  bool
	Prealloc  int // single: preallocated bytes; multi: 0/1
	MaxOpen   int
	Prefetch  int
	Comp      int
	Level     int
}

func (c cfg) String() string {
	k := "single"
	if c.Multi {
		k = fmt.Sprintf("multi fs=%d maxOpen=%d prefetch=%d", c.FileSize, c.MaxOpen, c.Prefetch)
	}
	return fmt.Sprintf("%s wbuf=%d retry=%v auto=%v prealloc=%d comp=%d/%d", k, c.WBuf, c.Retryable, c.AutoSync, c.Prealloc, c.Comp, c.Level)
}

func open(path string, c cfg, meta []byte, readOnly bool) (appendable.Appendable, error) {
	if c.Multi {
		o := multiapp.DefaultOptions().WithFileSize(c.FileSize).WithWriteBufferSize(c.WBuf).
			WithRetryableSync(c.Retryable).WithAutoSync(c.AutoSync).WithPrealloc(c.Prealloc > 0).
			WithMaxOpenedFiles(c.MaxOpen).WithPrefetchAheadDepth(c.Prefetch).WithMetadata(meta).
			WithCompressionFormat(c.Comp).WithCompresionLevel(c.Level).WithReadOnly(readOnly).WithReadBufferSize(16)
		a, err := multiapp.Open(path, o)
		if err != nil {
			return nil, err
		}
		return a, nil
	}
	o := singleapp.DefaultOptions().WithWriteBuffer(make([]byte, c.WBuf)).
		WithRetryableSync(c.Retryable).WithAutoSync(c.AutoSync).WithPreallocSize(c.Prealloc).WithMetadata(meta).
		WithCompressionFormat(c.Comp).WithCompresionLevel(c.Level).WithReadOnly(readOnly).WithReadBufferSize(16)
	a, err := singleapp.Open(path, o)
	if err != nil {
		return nil, err
	}
	return a, nil
}

func (c cfg) errClosed() error {
	if c.Multi {
		return multiapp.ErrAlreadyClosed
	}
	return singleapp.ErrAlreadyClosed
}

func (c cfg) errReadOnly() error {
	if c.Multi {
		return multiapp.ErrReadOnly
	}
	return singleapp.ErrReadOnly
}

func (c cfg) errIllegal() error {
	if c.Multi {
		return multiapp.ErrIllegalArguments
	}
	return singleapp.ErrIllegalArguments
}

// content byte i of the seq-th append: never 0 (preallocated space is zeroed), and a
// rewritten range practically never repeats the bytes it replaces.
func content(seq, n int) []byte {
	b := make([]byte, n)
	x := uint32(seq)*2654435761 + 0x9E3779B9
	for i := range b {
		x ^= x << 13
		x ^= x >> 17
		x ^= x << 5
		v := byte(x >> 11)
		if v == 0 {
			v = byte(seq) | 1
		}
		b[i] = v
	}
	return b
}

func makeMeta(n int) []byte {
	if n < 0 {
		return nil
	}
	b := make([]byte, n)
	for i := range b {
		b[i] = byte(i*7 + 3)
	}
	return b
}

// ---------------------------------------------------------------------------
// the model-checked harness (uncompressed)

type harness struct {
	fail func(format string, args ...any) // never returns
	lbl  func(string)
	tok  func(format string, args ...any)

	c    cfg
	path string
	meta []byte
	app  appendable.Appendable

	data    []byte // the model: bytes [0,size)
	hw      int    // upper bound of what the never-truncated files hold
	discard int    // bytes below are discarded
	seq     int
	maxSize int

	sinceSync int // upper bound of the write-buffer usage (retryable sync)
	lastFlush int // size at the last explicit flush/sync/open

	pendingRewindEnd            int // >0: old end of a rewind below lastFlush not yet followed by an append
	reopens, span3, rewindShort int
	raceRetries                 int64

	log []string
}

func (h *harness) logf(format string, args ...any) {
	if len(h.log) < 400 {
		h.log = append(h.log, fmt.Sprintf(format, args...))
	}
}

func (h *harness) size() int { return len(h.data) }

// stale: bytes may exist in the files after the logical end.
func (h *harness) stale() bool { return h.c.Prealloc > 0 || h.hw > len(h.data) }

// exactEnd: a read crossing the logical end must stop exactly there with io.EOF.
// singleapp bounds every read by its offset. multiapp routes a read at an offset that is a
// multiple of the chunk size to the next chunk file; when that file still holds bytes from
// before a rewind (K3) or preallocated zeros, they are returned.
func (h *harness) exactEnd() bool {
	if !h.c.Multi {
		return true
	}
	if !h.stale() || len(h.data)%h.c.FileSize != 0 {
		return true
	}
	if h.c.Prealloc == 0 && !vk.Excluded(kfK3) {
		return true // K3 not present on this tree: assert the strict behaviour
	}
	return false
}

func (h *harness) noteWeakEnd() {
	if h.c.Prealloc > 0 {
		h.lbl("prealloc-read-past-end-not-asserted")
		return
	}
	vk.CountExcluded(kfK3)
	h.lbl("K3-read-past-end-not-asserted")
}

func (h *harness) sizeCheck(where string) {
	sz, err := h.app.Size()
	if err != nil || int(sz) != len(h.data) {
		h.fail("%s: Size()=(%d,%v), model size %d", where, sz, err, len(h.data))
	}
	if off := h.app.Offset(); int(off) != len(h.data) {
		h.fail("%s: Offset()=%d, model size %d", where, off, len(h.data))
	}
}

func (h *harness) openFresh() {
	app, err := open(h.path, h.c, h.meta, false)
	if err != nil {
		h.fail("open: %v", err)
	}
	h.app = app
	sz, err := app.Size()
	want := 0
	if h.c.Prealloc > 0 {
		want = h.c.Prealloc
		if h.c.Multi {
			want = h.c.FileSize
		}
	}
	if err != nil || int(sz) != want {
		h.fail("fresh appendable: Size()=(%d,%v) want %d", sz, err, want)
	}
	if want > 0 {
		if err := app.SetOffset(0); err != nil {
			h.fail("SetOffset(0) on a fresh preallocated appendable: %v", err)
		}
	}
	if !bytes.Equal(app.Metadata(), h.meta) {
		h.fail("fresh appendable: Metadata() differs from the one given (%d vs %d bytes)", len(app.Metadata()), len(h.meta))
	}
	h.sizeCheck("after open")
}

func (h *harness) doAppend(n int) {
	bs := content(h.seq, n)
	h.seq++
	start := len(h.data)
	rest := bs
	justSynced := false
	for {
		before := len(h.data)
		off, wn, err := h.app.Append(rest)
		if err == nil {
			if int(off) != before {
				h.fail("Append(%d bytes) returned offset %d, previous size %d", len(rest), off, before)
			}
			if wn != len(rest) {
				h.fail("Append(%d bytes) returned n=%d", len(rest), wn)
			}
			h.data = append(h.data, rest...)
			h.sinceSync += len(rest)
			break
		}
		if errors.Is(err, singleapp.ErrBufferFull) && h.c.Retryable && !h.c.AutoSync {
			if h.sinceSync+len(rest) <= h.c.WBuf {
				h.fail("Append(%d bytes): ErrBufferFull although at most %d bytes were appended since the last Sync (buffer %d)", len(rest), h.sinceSync, h.c.WBuf)
			}
			got := int(h.app.Offset()) - before
			if got < 0 || got >= len(rest) {
				h.fail("Append(%d bytes)=ErrBufferFull moved the offset by %d", len(rest), got)
			}
			if !h.c.Multi && (int(off) != before || wn != got) {
				h.fail("Append(%d bytes)=ErrBufferFull returned off=%d n=%d; previous size %d, offset moved by %d", len(rest), off, wn, before, got)
			}
			if h.c.Multi && wn > got {
				h.fail("Append(%d bytes)=ErrBufferFull returned n=%d but the offset moved by %d", len(rest), wn, got)
			}
			if justSynced && got < h.c.WBuf {
				h.fail("Append(%d bytes) right after Sync accepted only %d bytes (buffer %d) before ErrBufferFull", len(rest), got, h.c.WBuf)
			}
			h.data = append(h.data, rest[:got]...)
			rest = rest[got:]
			if err := h.app.Sync(); err != nil {
				h.fail("Sync after ErrBufferFull: %v", err)
			}
			h.sinceSync = 0
			h.lastFlush = len(h.data)
			justSynced = true
			h.lbl("buffer-full-then-sync")
			continue
		}
		h.fail("Append(%d bytes) at size %d: %v", len(rest), before, err)
	}
	end := len(h.data)
	h.logf("append %d bytes @%d", n, start)
	if end > h.hw {
		h.hw = end
	}
	if h.c.Multi && (end-1)/h.c.FileSize-start/h.c.FileSize >= 2 {
		h.span3++
		h.lbl("append-spans-3-chunks")
	}
	if h.pendingRewindEnd > 0 {
		if end < h.pendingRewindEnd {
			h.rewindShort++
			h.lbl("rewind-below-flush-then-shorter-append")
		}
		h.pendingRewindEnd = 0
	}
	h.sizeCheck("after Append")
}

// readAt is ReadAt with the handling of known finding K17r: a multiapp read that runs while another
// goroutine (concurrent reader, appender, read-ahead) can evict chunk handles may fail with
// cache.ErrKeyNotFound; exactly those failures are counted and the read is issued again.
func (h *harness) readAt(app appendable.Appendable, buf []byte, off int64, concurrent bool) (int, error) {
	for try := 0; ; try++ {
		n, err := app.ReadAt(buf, off)
		if err != nil && errors.Is(err, cache.ErrKeyNotFound) && h.c.Multi && (concurrent || h.c.Prefetch > 0) && vk.Excluded(kfRace) && try < 10000 {
			vk.CountExcluded(kfRace)
			atomic.AddInt64(&h.raceRetries, 1)
			continue
		}
		if err != nil && errors.Is(err, cache.ErrKeyNotFound) {
			err = fmt.Errorf("%w (try %d, multi=%v concurrent=%v prefetch=%d K17r-excluded=%v)", err, try, h.c.Multi, concurrent, h.c.Prefetch, vk.Excluded(kfRace))
		}
		return n, err
	}
}

type retryReaderAt struct {
	h   *harness
	app appendable.Appendable
}

func (r retryReaderAt) ReadAt(b []byte, off int64) (int, error) {
	return r.h.readAt(r.app, b, off, false)
}

// doRead checks one window [start, start+ln).
func (h *harness) doRead(start, ln int) {
	buf := make([]byte, ln)
	for i := range buf {
		buf[i] = 0xEE
	}
	n, err := h.readAt(h.app, buf, int64(start), false)
	size := len(h.data)
	if start+ln <= size {
		if err != nil || n != ln {
			h.fail("ReadAt(%d bytes @%d) = (%d,%v), size %d", ln, start, n, err, size)
		}
		if !bytes.Equal(buf, h.data[start:start+ln]) {
			h.fail("ReadAt(%d bytes @%d) returned %x, model %x (first difference at offset %d)", ln, start, buf, h.data[start:start+ln], start+firstDiff(buf, h.data[start:start+ln]))
		}
		return
	}
	in := size - start
	if in < 0 {
		in = 0
	}
	if h.exactEnd() {
		if n != in || err != io.EOF {
			h.fail("ReadAt(%d bytes @%d) crossing the end (size %d) = (%d,%v), want (%d,EOF)", ln, start, size, n, err, in)
		}
	} else {
		h.noteWeakEnd()
		if n < in || n > ln || (err != nil && err != io.EOF) {
			h.fail("ReadAt(%d bytes @%d) crossing the end (size %d) = (%d,%v), want at least the %d in-range bytes", ln, start, size, n, err, in)
		}
	}
	if in > 0 && !bytes.Equal(buf[:in], h.data[start:size]) {
		h.fail("ReadAt(%d bytes @%d) crossing the end: in-range prefix %x, model %x", ln, start, buf[:in], h.data[start:size])
	}
}

func firstDiff(a, b []byte) int {
	for i := range a {
		if i >= len(b) || a[i] != b[i] {
			return i
		}
	}
	return len(a)
}

// verifyAll reads [discard,size) in one call and in pieces, plus a window crossing the end.
func (h *harness) verifyAll(piece int) {
	lo, hi := h.discard, len(h.data)
	if hi > lo {
		h.doRead(lo, hi-lo)
		if piece > 0 {
			for p := lo; p < hi; p += piece {
				l := piece
				if p+l > hi {
					l = hi - p
				}
				h.doRead(p, l)
			}
		}
	}
	h.doRead(hi, 3)
	if hi > lo {
		h.doRead(hi-1, 5)
	}
}

func (h *harness) doSetOffset(x int) {
	old := len(h.data)
	if err := h.app.SetOffset(int64(x)); err != nil {
		h.fail("SetOffset(%d) at size %d: %v", x, old, err)
	}
	h.logf("setOffset %d (from %d)", x, old)
	if x < old {
		switch {
		case h.c.Multi && x/h.c.FileSize != (old-1)/h.c.FileSize && x/h.c.FileSize != old/h.c.FileSize:
			h.lbl("rewind-across-chunks")
		case x < h.lastFlush:
			h.lbl("rewind-below-flushed")
		default:
			h.lbl("rewind-maybe-in-buffer")
		}
		if x < h.lastFlush {
			h.pendingRewindEnd = old
			h.lastFlush = x
		}
	}
	h.data = h.data[:x]
	h.sizeCheck("after SetOffset")
}

func (h *harness) doSetOffsetBeyond() {
	err := h.app.SetOffset(int64(len(h.data) + 1))
	if !errors.Is(err, h.c.errIllegal()) {
		h.fail("SetOffset(size+1): err=%v, want ErrIllegalArguments", err)
	}
	h.sizeCheck("after rejected SetOffset")
}

func (h *harness) doFlush() {
	if err := h.app.Flush(); err != nil {
		h.fail("Flush: %v", err)
	}
	h.lastFlush = len(h.data)
	h.logf("flush")
	h.sizeCheck("after Flush")
}

func (h *harness) doSync() {
	if err := h.app.Sync(); err != nil {
		h.fail("Sync: %v", err)
	}
	h.lastFlush = len(h.data)
	h.sinceSync = 0
	h.logf("sync")
	h.sizeCheck("after Sync")
}

func (h *harness) doDiscard(x int) {
	if err := h.app.DiscardUpto(int64(x)); err != nil {
		h.fail("DiscardUpto(%d) at size %d: %v", x, len(h.data), err)
	}
	if x > h.discard {
		h.discard = x
	}
	h.logf("discardUpto %d", x)
	if err := h.app.DiscardUpto(int64(len(h.data) + 1)); !errors.Is(err, h.c.errIllegal()) {
		h.fail("DiscardUpto(size+1): err=%v, want ErrIllegalArguments", err)
	}
	h.sizeCheck("after DiscardUpto")
}

// beforeClose handles known finding K3: a rewind that is still "open" (the files hold bytes
// after the logical end) is not persisted. mode 0: re-append up to the high-water mark first;
// mode 1: keep the state and accept any reopened size in [size, hw] (then SetOffset(size)).
// Returns true if the weak size oracle applies.
func (h *harness) beforeClose(mode int, canAppend bool) (weak bool) {
	if h.c.Prealloc > 0 {
		return true
	}
	if h.hw == len(h.data) {
		return false
	}
	if !vk.Excluded(kfK3) {
		return false
	}
	vk.CountExcluded(kfK3)
	if mode == 0 && canAppend {
		h.lbl("K3-reappended-to-high-water-before-close")
		h.doAppend(h.hw - len(h.data))
		return false
	}
	h.lbl("K3-reopen-size-in-range-only")
	return true
}

func (h *harness) checkClosed(app appendable.Appendable, dst string) {
	want := h.c.errClosed()
	chk := func(op string, err error) {
		if !errors.Is(err, want) {
			h.fail("%s on a closed appendable: err=%v, want %v", op, err, want)
		}
	}
	_, err := app.Size()
	chk("Size", err)
	_, _, err = app.Append([]byte{1})
	chk("Append", err)
	_, err = app.ReadAt(make([]byte, 1), 0)
	chk("ReadAt", err)
	chk("Flush", app.Flush())
	chk("Sync", app.Sync())
	chk("SetOffset", app.SetOffset(0))
	chk("DiscardUpto", app.DiscardUpto(0))
	chk("SwitchToReadOnlyMode", app.SwitchToReadOnlyMode())
	chk("Copy", app.Copy(dst))
	chk("Close", app.Close())
}

func (h *harness) checkReadOnly(app appendable.Appendable) {
	want := h.c.errReadOnly()
	chk := func(op string, err error) {
		if !errors.Is(err, want) {
			h.fail("%s on a read-only appendable: err=%v, want %v", op, err, want)
		}
	}
	_, _, err := app.Append([]byte{1})
	chk("Append", err)
	chk("Flush", app.Flush())
	chk("Sync", app.Sync())
	chk("SetOffset", app.SetOffset(0))
	chk("SwitchToReadOnlyMode", app.SwitchToReadOnlyMode())
}

// verifyOpened compares a just opened appendable (the reopened one or a copy) with the model.
// Returns the reported size.
func (h *harness) verifyOpened(app appendable.Appendable, what string, weak bool, c cfg) int {
	sz, err := app.Size()
	if err != nil {
		h.fail("%s: Size(): %v", what, err)
	}
	size := len(h.data)
	if !weak {
		if int(sz) != size {
			h.fail("%s: Size()=%d, model size %d", what, sz, size)
		}
	} else if h.c.Prealloc > 0 {
		if int(sz) < size || (h.c.Multi && int(sz)%h.c.FileSize != 0) {
			h.fail("%s (preallocated): Size()=%d, model size %d, chunk size %d", what, sz, size, h.c.FileSize)
		}
	} else if int(sz) < size || int(sz) > h.hw {
		h.fail("%s: Size()=%d outside [model size %d, high-water mark %d]", what, sz, size, h.hw)
	}
	if !bytes.Equal(app.Metadata(), h.meta) {
		h.fail("%s: Metadata() differs: %d bytes, want %d bytes", what, len(app.Metadata()), len(h.meta))
	}
	if app.CompressionFormat() != c.Comp || app.CompressionLevel() != c.Level {
		h.fail("%s: compression %d/%d want %d/%d", what, app.CompressionFormat(), app.CompressionLevel(), c.Comp, c.Level)
	}
	if size > h.discard {
		buf := make([]byte, size-h.discard)
		n, err := h.readAt(app, buf, int64(h.discard), false)
		if n != len(buf) || err != nil {
			h.fail("%s: ReadAt(%d bytes @%d) = (%d,%v)", what, len(buf), h.discard, n, err)
		}
		if !bytes.Equal(buf, h.data[h.discard:]) {
			h.fail("%s: bytes differ from the model, first at offset %d (size %d): got %x want %x", what, h.discard+firstDiff(buf, h.data[h.discard:]), size, buf, h.data[h.discard:])
		}
	}
	return int(sz)
}

// doReopen: close, check the closed appendable, reopen with cfg c2 (optionally first read-only).
func (h *harness) doReopen(c2 cfg, k3mode int, roFirst bool, otherMeta bool) {
	weak := h.beforeClose(k3mode, true)
	h.closeAndReopen(c2, weak, roFirst, otherMeta)
}

func (h *harness) closeAndReopen(c2 cfg, weak bool, roFirst bool, otherMeta bool) {
	old := h.app
	if err := old.Close(); err != nil {
		h.fail("Close: %v", err)
	}
	h.checkClosed(old, h.path+"-x")
	h.logf("close+reopen %s weak=%v roFirst=%v", c2, weak, roFirst)
	meta := h.meta
	if otherMeta {
		meta = []byte("other metadata given at reopen")
	}
	if roFirst {
		ro, err := open(h.path, c2, meta, true)
		if err != nil {
			h.fail("reopen read-only: %v", err)
		}
		h.verifyOpened(ro, "reopened read-only", weak, c2)
		h.checkReadOnly(ro)
		if err := ro.Close(); err != nil {
			h.fail("Close of read-only appendable: %v", err)
		}
		h.lbl("reopen-read-only")
	}
	app, err := open(h.path, c2, meta, false)
	if err != nil {
		h.fail("reopen: %v", err)
	}
	h.app = app
	// fileSize and preallocation are properties of the stored files
	c2.FileSize, c2.Prealloc = h.c.FileSize, h.c.Prealloc
	h.c = c2
	sz := h.verifyOpened(app, "reopened", weak, c2)
	if sz != len(h.data) {
		if err := app.SetOffset(int64(len(h.data))); err != nil {
			h.fail("SetOffset(%d) after reopen (reported size %d): %v", len(h.data), sz, err)
		}
		if h.c.Prealloc == 0 {
			h.hw = sz
		}
	}
	if h.c.Prealloc > 0 && sz > h.hw {
		h.hw = sz
	}
	h.reopens++
	h.sinceSync = 0
	h.lastFlush = len(h.data)
	h.pendingRewindEnd = 0
	h.lbl("reopen")
	h.sizeCheck("after reopen")
}

func (h *harness) doSwitchReadOnly(c2 cfg, k3mode int) {
	weak := h.beforeClose(k3mode, true)
	if err := h.app.SwitchToReadOnlyMode(); err != nil {
		h.fail("SwitchToReadOnlyMode: %v", err)
	}
	h.logf("switchToReadOnly")
	h.checkReadOnly(h.app)
	h.sizeCheck("after SwitchToReadOnlyMode")
	h.verifyAll(7)
	if err := h.app.DiscardUpto(int64(h.discard)); err != nil {
		h.fail("DiscardUpto on read-only appendable: %v", err)
	}
	h.lbl("switch-read-only")
	h.closeAndReopen(c2, weak, false, false)
}

func (h *harness) doCopy(readOnly bool) {
	dst := h.path + "-copy"
	defer removeAll(dst)
	weak := h.beforeClose(1, false)
	if err := h.app.Copy(dst); err != nil {
		h.fail("Copy: %v", err)
	}
	h.logf("copy")
	if h.c.Multi {
		h.sinceSync = 0
	}
	h.lastFlush = len(h.data)
	h.sizeCheck("after Copy")
	cp, err := open(dst, h.c, h.meta, readOnly)
	if err != nil {
		h.fail("open the copy: %v", err)
	}
	h.verifyOpened(cp, "copy", weak, h.c)
	if err := cp.Close(); err != nil {
		h.fail("Close of the copy: %v", err)
	}
	h.lbl("copy")
}

// doReader drives appendable.Reader over [start, ...).
func (h *harness) doReader(start, bufSize int, pieces []int) {
	r := appendable.NewReaderFrom(retryReaderAt{h, h.app}, int64(start), bufSize)
	pos := start
	total := 0
	for _, p := range pieces {
		size := len(h.data)
		if pos+p > size {
			if !h.exactEnd() {
				break
			}
			buf := make([]byte, p)
			n, err := r.Read(buf)
			if n != size-pos || err != io.EOF {
				h.fail("Reader(from %d, buffer %d): Read(%d) at %d with size %d = (%d,%v), want (%d,EOF)", start, bufSize, p, pos, size, n, err, size-pos)
			}
			if !bytes.Equal(buf[:n], h.data[pos:size]) {
				h.fail("Reader(from %d, buffer %d): tail differs at %d", start, bufSize, pos)
			}
			total += n
			h.lbl("reader-eof")
			break
		}
		buf := make([]byte, p)
		n, err := r.Read(buf)
		if n != p || err != nil {
			h.fail("Reader(from %d, buffer %d): Read(%d) at %d with size %d = (%d,%v)", start, bufSize, p, pos, size, n, err)
		}
		if !bytes.Equal(buf, h.data[pos:pos+p]) {
			h.fail("Reader(from %d, buffer %d): Read(%d) at %d returned %x, model %x", start, bufSize, p, pos, buf, h.data[pos:pos+p])
		}
		pos += p
		total += p
	}
	if r.ReadCount() != int64(total) {
		h.fail("Reader.ReadCount()=%d after reading %d bytes", r.ReadCount(), total)
	}
	h.logf("reader from %d buf %d read %d", start, bufSize, total)
}

type window struct{ start, ln int }

// doConcurrent: readers check windows of the bytes that exist now while the writer appends.
func (h *harness) doConcurrent(appends []int, readers [][]window) {
	snap := append([]byte(nil), h.data...)
	if h.c.Multi && len(snap) > 0 && (vk.Excluded(kfRot) || vk.Excluded(kfCls)) {
		// known findings K17x / K17y: a read of the active chunk that overlaps a chunk rotation may be
		// served by the next chunk, or find its handle closed by the next eviction. Windows are cut at the
		// start of the chunk that is active now when the appends of this step leave that chunk.
		total := 0
		for _, n := range appends {
			total += n
		}
		fs := h.c.FileSize
		vuln := (len(snap) - 1) / fs * fs
		if len(snap)+total > vuln+fs {
			var kept [][]window
			for _, ws := range readers {
				var k []window
				for _, w := range ws {
					if w.start+w.ln > vuln {
						if vk.Excluded(kfRot) {
							vk.CountExcluded(kfRot)
						}
						if vk.Excluded(kfCls) {
							vk.CountExcluded(kfCls)
						}
						h.lbl("K17x/y-window-cut-before-active-chunk")
						if w.start >= vuln {
							continue
						}
						w.ln = vuln - w.start
					}
					k = append(k, w)
				}
				if len(k) > 0 {
					kept = append(kept, k)
				}
			}
			readers = kept
		} else {
			h.lbl("concurrent-read-of-active-chunk")
		}
	}
	done := make(chan struct{})
	errs := make(chan string, len(readers))
	app := h.app
	for _, ws := range readers {
		ws := ws
		go func() {
			msg := ""
			defer func() { errs <- msg }()
			for round := 0; round < 50; round++ {
				for _, w := range ws {
					buf := make([]byte, w.ln)
					n, err := h.readAt(app, buf, int64(w.start), true)
					if n != w.ln || err != nil {
						msg = fmt.Sprintf("concurrent ReadAt(%d bytes @%d) = (%d,%v) while appending (size was %d)", w.ln, w.start, n, err, len(snap))
						return
					}
					if !bytes.Equal(buf, snap[w.start:w.start+w.ln]) {
						msg = fmt.Sprintf("concurrent ReadAt(%d bytes @%d) returned %x, model %x", w.ln, w.start, buf, snap[w.start:w.start+w.ln])
						return
					}
				}
				select {
				case <-done:
					return
				default:
				}
			}
		}()
	}
	rmsg := ""
	func() {
		defer func() {
			close(done)
			for range readers {
				if m := <-errs; m != "" && rmsg == "" {
					rmsg = m
				}
			}
		}()
		for _, n := range appends {
			h.doAppend(n)
		}
	}()
	if rmsg != "" {
		h.fail("%s", rmsg)
	}
	h.lbl("concurrent-readers")
}

// ---------------------------------------------------------------------------
// rapid generator

func genCfg(rt *rapid.T) cfg {
	c := cfg{Multi: rapid.IntRange(0, 9).Draw(rt, "multi") < 7, Level: appendable.DefaultCompressionLevel}
	c.WBuf = rapid.SampledFrom([]int{1, 2, 3, 5, 8, 13, 16, 31, 64}).Draw(rt, "wbuf")
	switch rapid.IntRange(0, 5).Draw(rt, "syncMode") {
	case 0, 1:
		c.Retryable, c.AutoSync = false, false
	case 2:
		c.Retryable, c.AutoSync = false, true
	case 3, 4:
		c.Retryable, c.AutoSync = true, true
	case 5:
		c.Retryable, c.AutoSync = true, false
	}
	pre := rapid.IntRange(0, 5).Draw(rt, "prealloc") == 0
	if c.Multi {
		c.FileSize = rapid.SampledFrom([]int{4, 8, 13, 16, 32, 64, 100, 512}).Draw(rt, "fileSize")
		c.MaxOpen = rapid.SampledFrom([]int{1, 1, 2, 3}).Draw(rt, "maxOpen")
		c.Prefetch = rapid.SampledFrom([]int{0, 0, 0, 2}).Draw(rt, "prefetch")
		if pre {
			c.Prealloc = 1
		}
	} else if pre {
		c.Prealloc = rapid.SampledFrom([]int{10, 40, 300}).Draw(rt, "preallocSize")
	}
	return c
}

// pickPos draws an offset in [lo,hi] biased to the places where the arithmetic changes.
func (h *harness) pickPos(rt *rapid.T, lo, hi int, label string) int {
	if hi <= lo {
		return lo
	}
	var cands []int
	add := func(v int) {
		if v >= lo && v <= hi {
			cands = append(cands, v)
		}
	}
	add(lo)
	add(hi)
	add(hi - 1)
	add(h.lastFlush)
	add(h.lastFlush - 1)
	add(h.lastFlush + 1)
	if h.c.Multi {
		fs := h.c.FileSize
		k := rapid.IntRange(lo/fs, hi/fs).Draw(rt, label+"Chunk")
		add(k * fs)
		add(k*fs - 1)
		add(k*fs + 1)
	}
	add(hi - rapid.IntRange(0, h.c.WBuf+1).Draw(rt, label+"Back"))
	i := rapid.IntRange(0, len(cands)+2).Draw(rt, label+"Kind")
	if i < len(cands) {
		return cands[i]
	}
	return rapid.IntRange(lo, hi).Draw(rt, label)
}

func (h *harness) pickLen(rt *rapid.T, label string) int {
	unit := h.c.WBuf
	if h.c.Multi && rapid.Bool().Draw(rt, label+"ByChunk") {
		unit = h.c.FileSize
	}
	switch rapid.IntRange(0, 9).Draw(rt, label+"Kind") {
	case 0, 1, 2:
		return rapid.IntRange(1, 9).Draw(rt, label)
	case 3:
		return unit
	case 4:
		return unit + 1
	case 5:
		if unit > 1 {
			return unit - 1
		}
		return 1
	case 6:
		return rapid.IntRange(1, 3).Draw(rt, label+"Mul")*unit + rapid.IntRange(0, 2).Draw(rt, label+"Plus")
	case 7:
		if h.c.Multi { // exactly up to the end of the current chunk
			if r := h.c.FileSize - len(h.data)%h.c.FileSize; r > 0 {
				return r
			}
		}
		return unit
	default:
		return rapid.IntRange(1, 3*unit+2).Draw(rt, label)
	}
}

func tweakCfg(rt *rapid.T, c cfg) cfg {
	c2 := c
	if rapid.Bool().Draw(rt, "changeWBuf") {
		c2.WBuf = rapid.SampledFrom([]int{1, 2, 3, 5, 8, 13, 16, 31, 64}).Draw(rt, "wbuf2")
	}
	if rapid.IntRange(0, 3).Draw(rt, "changeSync") == 0 {
		c2.Retryable = rapid.Bool().Draw(rt, "retry2")
		c2.AutoSync = rapid.Bool().Draw(rt, "auto2")
	}
	if c.Multi {
		c2.MaxOpen = rapid.SampledFrom([]int{1, 1, 2, 3}).Draw(rt, "maxOpen2")
		if c.Prealloc == 0 && rapid.IntRange(0, 3).Draw(rt, "changeFS") == 0 {
			// the chunk size of an existing multiapp is the stored one, whatever the options say
			c2.FileSize = rapid.SampledFrom([]int{4, 16, 1 << 20}).Draw(rt, "fileSize2")
		}
	}
	return c2
}

func TestAppendableModel(t *testing.T) {
	vk.Check(t, 8000, 150000, func(rt *rapid.T, c *vk.Case) {
		h := &harness{c: genCfg(rt)}
		h.fail = func(format string, args ...any) {
			c.Failf(rt, map[string]any{"cfg": h.c.String(), "ops": h.log, "size": len(h.data), "hw": h.hw, "discard": h.discard}, format, args...)
			panic("unreachable")
		}
		h.lbl = c.Label
		h.tok = c.Descf
		metaLen := rapid.SampledFrom([]int{-1, 0, 1, 24, 200, 3000, 5000}).Draw(rt, "metaLen")
		if metaLen > 3500 && vk.Excluded(kfMeta) {
			vk.CountExcluded(kfMeta)
			c.Label("K17m-large-metadata-avoided")
			metaLen = 3000
		}
		h.meta = makeMeta(metaLen)
		c.Descf("%s meta=%d", h.c, metaLen)
		dir := vk.Dir()
		defer removeAll(dir)
		h.path = filepath.Join(dir, "app")
		if h.c.Multi {
			h.maxSize = h.c.FileSize * 40
			if h.maxSize > 3000 {
				h.maxSize = 3000
			}
		} else {
			h.maxSize = 1500
		}
		h.openFresh()
		defer func() { h.app.Close() }()

		crossChunkReads, crossEndReads := 0, 0

		rd := func(rt *rapid.T) {
			size := len(h.data)
			hiStart := size
			if !h.stale() || !h.c.Multi {
				hiStart = size + 2 // reads that start beyond the end
			}
			start := h.pickPos(rt, h.discard, hiStart, "rdStart")
			ln := h.pickLen(rt, "rdLen")
			if rapid.IntRange(0, 3).Draw(rt, "rdToEnd") == 0 && size > start {
				ln = size - start + rapid.IntRange(0, 2).Draw(rt, "rdOver")
				if ln == 0 {
					ln = 1
				}
			}
			h.doRead(start, ln)
			if h.c.Multi && start < size && start/h.c.FileSize != (minInt(start+ln, size)-1)/h.c.FileSize {
				crossChunkReads++
			}
			if start+ln > size {
				crossEndReads++
			}
		}
		app := func(rt *rapid.T) {
			n := h.pickLen(rt, "appLen")
			if len(h.data)+n > h.maxSize {
				rt.Skip("max size")
			}
			h.doAppend(n)
			c.Descf("A%d", n)
		}
		setOff := func(rt *rapid.T) {
			if len(h.data) == h.discard {
				rt.Skip("nothing to rewind")
			}
			x := h.pickPos(rt, h.discard, len(h.data), "rewindTo")
			h.doSetOffset(x)
			c.Descf("R%d", x)
		}
		rt.Repeat(map[string]func(*rapid.T){
			"append":  app,
			"append2": app,
			"append3": app,
			"read":    rd,
			"read2":   rd,
			"readAll": func(rt *rapid.T) {
				h.verifyAll(rapid.SampledFrom([]int{0, 1, 3, 7, 16}).Draw(rt, "piece"))
			},
			"setOffset":  setOff,
			"setOffset2": setOff,
			"setOffsetBeyond": func(rt *rapid.T) {
				h.doSetOffsetBeyond()
			},
			"flush": func(rt *rapid.T) { h.doFlush(); c.Descf("F") },
			"sync":  func(rt *rapid.T) { h.doSync(); c.Descf("S") },
			"discard": func(rt *rapid.T) {
				x := h.pickPos(rt, 0, len(h.data), "discardTo")
				h.doDiscard(x)
				c.Descf("D%d", x)
				c.Label("discard")
			},
			"reopen": func(rt *rapid.T) {
				c2 := tweakCfg(rt, h.c)
				h.doReopen(c2, rapid.IntRange(0, 1).Draw(rt, "k3mode"), rapid.IntRange(0, 3).Draw(rt, "roFirst") == 0, rapid.IntRange(0, 3).Draw(rt, "otherMeta") == 0)
				c.Descf("O[%s]", c2)
			},
			"switchRO": func(rt *rapid.T) {
				c2 := tweakCfg(rt, h.c)
				h.doSwitchReadOnly(c2, rapid.IntRange(0, 1).Draw(rt, "k3mode"))
				c.Descf("RO[%s]", c2)
			},
			"copy": func(rt *rapid.T) {
				h.doCopy(rapid.Bool().Draw(rt, "copyRO"))
				c.Descf("C")
			},
			"reader": func(rt *rapid.T) {
				if len(h.data) == h.discard {
					rt.Skip("empty")
				}
				start := h.pickPos(rt, h.discard, len(h.data), "rdrStart")
				bufSize := rapid.SampledFrom([]int{1, 2, 5, 8, 16, 33}).Draw(rt, "rdrBuf")
				var pieces []int
				for i, k := 0, rapid.IntRange(1, 8).Draw(rt, "rdrPieces"); i < k; i++ {
					pieces = append(pieces, rapid.SampledFrom([]int{1, 2, 4, 8, 17, 40}).Draw(rt, "rdrPiece"))
				}
				h.doReader(start, bufSize, pieces)
				c.Label("reader")
			},
			"concurrent": func(rt *rapid.T) {
				lo, hi := h.discard, len(h.data)
				if hi-lo < 2 {
					rt.Skip("too little data")
				}
				var appends []int
				total := 0
				for i, k := 0, rapid.IntRange(1, 6).Draw(rt, "cAppends"); i < k; i++ {
					n := h.pickLen(rt, "cLen")
					if hi+total+n > h.maxSize {
						break
					}
					total += n
					appends = append(appends, n)
				}
				if len(appends) == 0 {
					rt.Skip("max size")
				}
				var readers [][]window
				for r, nr := 0, rapid.IntRange(1, 3).Draw(rt, "cReaders"); r < nr; r++ {
					var ws []window
					for i, k := 0, rapid.IntRange(1, 5).Draw(rt, "cWindows"); i < k; i++ {
						s := h.pickPos(rt, lo, hi-1, "cStart")
						l := rapid.IntRange(1, hi-s).Draw(rt, "cWinLen")
						ws = append(ws, window{s, l})
					}
					readers = append(readers, ws)
				}
				h.doConcurrent(appends, readers)
				c.Descf("CC%v", appends)
			},
			"": func(rt *rapid.T) { h.sizeCheck("invariant") },
		})
		h.verifyAll(5)
		// final: what was written must survive close + reopen
		h.doReopen(h.c, rapid.IntRange(0, 1).Draw(rt, "k3modeFinal"), false, false)
		h.verifyAll(0)

		if h.c.Multi {
			c.Label("multi")
		} else {
			c.Label("single")
		}
		if h.c.Retryable && h.c.AutoSync {
			c.Label("retryable+autosync")
		} else if h.c.Retryable {
			c.Label("retryable-no-autosync")
		}
		if h.c.Prealloc > 0 {
			c.Label("prealloc")
		}
		if h.reopens > 1 {
			c.Label("reopen-mid-history")
		}
		if crossChunkReads > 0 {
			c.Label("read-across-chunks")
		}
		if crossEndReads > 0 {
			c.Label("read-across-end")
		}
		if h.raceRetries > 0 {
			c.Label("K17r-read-retried-after-key-not-found")
		}
		if h.c.Multi && (h.hw+h.c.FileSize-1)/h.c.FileSize > h.c.MaxOpen+1 {
			c.Label("more-chunks-than-open-files")
		}
		c.Descf("size=%d", len(h.data))
		if h.reopens > 1 || h.span3 > 0 || h.rewindShort > 0 {
			c.NonTrivial()
		}
	})
}

func minInt(a, b int) int {
	if a < b {
		return a
	}
	return b
}

func mkdir(p string) error { return os.MkdirAll(p, 0o755) }
