package c17

import (
	"bytes"
	"fmt"
	"io"
	"path/filepath"
	"testing"

	"github.com/codenotary/immudb/embedded/appendable"
	"pgregory.net/rapid"

	"verif/internal/vk"
)

// Compressed appendables store one length-prefixed compressed record per Append; offsets and sizes
// are physical. The model is the list of (offset, payload) plus the size the appendable reports.

type centry struct {
	off  int64
	data []byte
}

var compNames = map[int]string{appendable.FlateCompression: "flate", appendable.GZipCompression: "gzip", appendable.LZWCompression: "lzw", appendable.ZLibCompression: "zlib"}

func payload(seq, n int, compressible bool) []byte {
	if !compressible {
		return content(seq+1000, n)
	}
	b := make([]byte, n)
	for i := range b {
		b[i] = byte('a' + (seq+i/7)%5)
	}
	return b
}

func TestCompressedModel(t *testing.T) {
	vk.Check(t, 1200, 20000, func(rt *rapid.T, c *vk.Case) {
		cf := cfg{
			Multi: rapid.Bool().Draw(rt, "multi"),
			Comp:  rapid.SampledFrom([]int{appendable.FlateCompression, appendable.GZipCompression, appendable.LZWCompression, appendable.ZLibCompression}).Draw(rt, "format"),
			Level: rapid.SampledFrom([]int{appendable.BestSpeed, appendable.DefaultCompression, appendable.BestCompression}).Draw(rt, "level"),
			WBuf:  rapid.SampledFrom([]int{1, 3, 8, 64, 4096}).Draw(rt, "wbuf"),
		}
		switch rapid.IntRange(0, 2).Draw(rt, "syncMode") {
		case 1:
			cf.AutoSync = true
		case 2:
			cf.Retryable, cf.AutoSync = true, true
		}
		if cf.Multi {
			cf.FileSize = rapid.SampledFrom([]int{16, 40, 100, 1000}).Draw(rt, "fileSize")
			cf.MaxOpen = rapid.SampledFrom([]int{1, 2, 3}).Draw(rt, "maxOpen")
		}
		meta := makeMeta(rapid.SampledFrom([]int{-1, 0, 9, 300}).Draw(rt, "metaLen"))
		c.Descf("%s meta=%d", cf, len(meta))
		c.Label(compNames[cf.Comp])
		if cf.Multi {
			c.Label("multi")
		} else {
			c.Label("single")
		}
		var ops []string
		fail := func(format string, args ...any) {
			c.Failf(rt, map[string]any{"cfg": cf.String(), "ops": ops}, format, args...)
		}
		dir := vk.Dir()
		defer removeAll(dir)
		path := filepath.Join(dir, "app")
		app, err := open(path, cf, meta, false)
		if err != nil {
			fail("open: %v", err)
		}
		defer func() { app.Close() }()

		var entries []centry
		var size, hw, chunkStart int64
		seq := 0
		dirty := false // multi: a rewind happened (stale chunk files may follow the logical end)
		reopens, rewindThenAppend, pendingRewind, overflows := 0, 0, false, 0

		checkSize := func(where string) {
			sz, err := app.Size()
			if err != nil || sz != size || app.Offset() != size {
				fail("%s: Size()=(%d,%v) Offset()=%d, model %d", where, sz, err, app.Offset(), size)
			}
		}
		readEntry := func(a appendable.Appendable, what string, e centry, kind int) {
			ln := len(e.data)
			switch kind {
			case 1: // shorter buffer
				if ln > 1 {
					ln = 1 + (ln-1)/2
				}
			case 2: // longer buffer (singleapp only: multiapp would continue at off+n, which is not an entry offset)
				if !cf.Multi {
					ln += 3
				}
			}
			buf := make([]byte, ln)
			n, err := a.ReadAt(buf, e.off)
			want := ln
			var wantErr error
			if ln > len(e.data) {
				want, wantErr = len(e.data), io.EOF
			}
			if n != want || err != wantErr {
				fail("%s: ReadAt(%d bytes @%d) of a %d-byte entry = (%d,%v), want (%d,%v)", what, ln, e.off, len(e.data), n, err, want, wantErr)
			}
			if !bytes.Equal(buf[:n], e.data[:n]) {
				fail("%s: ReadAt(%d bytes @%d) returned %x, model %x", what, ln, e.off, buf[:n], e.data[:n])
			}
		}
		verify := func(a appendable.Appendable, what string) {
			sz, err := a.Size()
			if err != nil || sz != size {
				fail("%s: Size()=(%d,%v), model %d", what, sz, err, size)
			}
			if !bytes.Equal(a.Metadata(), meta) {
				fail("%s: Metadata() differs", what)
			}
			if a.CompressionFormat() != cf.Comp || a.CompressionLevel() != cf.Level {
				fail("%s: compression %d/%d, want %d/%d", what, a.CompressionFormat(), a.CompressionLevel(), cf.Comp, cf.Level)
			}
			for _, e := range entries {
				readEntry(a, what, e, 0)
			}
		}
		doAppend := func(n int, compressible bool) {
			d := payload(seq, n, compressible)
			seq++
			exp := size
			if cf.Multi && size-chunkStart >= int64(cf.FileSize) && vk.Excluded(kfComp) {
				// known finding K17c: the record that crossed the chunk end was not split; the next
				// one starts at the next chunk base, below the reported size
				if chunkStart+int64(cf.FileSize) != size {
					vk.CountExcluded(kfComp)
					c.Label("K17c-append-offset-below-reported-size")
					overflows++
				}
				exp = chunkStart + int64(cf.FileSize)
			}
			off, wn, err := app.Append(d)
			if err != nil {
				fail("Append(%d bytes): %v", n, err)
			}
			if off != exp {
				fail("Append(%d bytes) returned offset %d, want %d (reported size %d, chunk base %d)", n, off, exp, size, chunkStart)
			}
			sz, err := app.Size()
			if err != nil || sz <= off {
				fail("after Append at %d: Size()=(%d,%v)", off, sz, err)
			}
			if cf.Multi {
				if wn != n {
					fail("Append(%d bytes) returned n=%d", n, wn)
				}
				chunkStart = off / int64(cf.FileSize) * int64(cf.FileSize)
			} else if int64(wn) != sz-off {
				fail("Append(%d bytes) at %d returned n=%d but the size grew to %d", n, off, wn, sz)
			}
			entries = append(entries, centry{off, d})
			size = sz
			if size > hw {
				hw = size
			}
			if pendingRewind {
				rewindThenAppend++
				pendingRewind = false
			}
			ops = append(ops, fmt.Sprintf("append %d bytes -> off %d size %d", n, off, size))
			checkSize("after Append")
		}
		reopen := func(final bool) bool {
			if vk.Excluded(kfK3) && hw > size || cf.Multi && dirty && vk.Excluded(kfK3) {
				vk.CountExcluded(kfK3)
				if cf.Multi {
					// stale chunk files may follow; with records crossing chunk ends the physical end is not derivable
					c.Label("K3-compressed-multi-reopen-after-rewind-not-generated")
					return false
				}
				c.Label("K3-reappended-to-high-water-before-close")
				for size < hw {
					doAppend(40, false)
				}
			}
			if err := app.Close(); err != nil {
				fail("Close: %v", err)
			}
			cf2 := cf
			if !final {
				cf2.WBuf = rapid.SampledFrom([]int{1, 3, 8, 64, 4096}).Draw(rt, "wbuf2")
			}
			if rapid.IntRange(0, 2).Draw(rt, "roFirst") == 0 {
				ro, err := open(path, cf2, meta, true)
				if err != nil {
					fail("reopen read-only: %v", err)
				}
				verify(ro, "reopened read-only")
				ro.Close()
			}
			app, err = open(path, cf2, meta, false)
			if err != nil {
				fail("reopen: %v", err)
			}
			cf = cf2
			verify(app, "reopened")
			reopens++
			ops = append(ops, "reopen")
			return true
		}

		rt.Repeat(map[string]func(*rapid.T){
			"append": func(rt *rapid.T) {
				if len(entries) > 60 {
					rt.Skip("enough")
				}
				n := rapid.SampledFrom([]int{1, 2, 5, 17, 40, 90, 300}).Draw(rt, "len")
				doAppend(n, rapid.Bool().Draw(rt, "compressible"))
				c.Descf("A%d", n)
			},
			"read": func(rt *rapid.T) {
				if len(entries) == 0 {
					rt.Skip("empty")
				}
				i := rapid.IntRange(0, len(entries)-1).Draw(rt, "entry")
				readEntry(app, "read", entries[i], rapid.IntRange(0, 2).Draw(rt, "bufKind"))
			},
			"rewind": func(rt *rapid.T) {
				if len(entries) == 0 {
					rt.Skip("empty")
				}
				i := rapid.IntRange(0, len(entries)-1).Draw(rt, "toEntry")
				x := entries[i].off
				if err := app.SetOffset(x); err != nil {
					fail("SetOffset(%d) (entry %d of %d, size %d): %v", x, i, len(entries), size, err)
				}
				entries = entries[:i]
				size = x
				if cf.Multi {
					chunkStart = x / int64(cf.FileSize) * int64(cf.FileSize)
					dirty = true
				}
				pendingRewind = true
				ops = append(ops, fmt.Sprintf("setOffset %d", x))
				c.Descf("R%d", i)
				c.Label("rewind")
				checkSize("after SetOffset")
			},
			"flush": func(rt *rapid.T) {
				if err := app.Flush(); err != nil {
					fail("Flush: %v", err)
				}
				ops = append(ops, "flush")
				c.Descf("F")
			},
			"sync": func(rt *rapid.T) {
				if err := app.Sync(); err != nil {
					fail("Sync: %v", err)
				}
				ops = append(ops, "sync")
				c.Descf("S")
			},
			"reopen": func(rt *rapid.T) {
				if !reopen(false) {
					rt.Skip("excluded by K3")
				}
				c.Descf("O")
			},
			"copy": func(rt *rapid.T) {
				if vk.Excluded(kfK3) && (hw > size || cf.Multi && dirty) {
					rt.Skip("stale suffix (K3)")
				}
				dst := path + "-copy"
				defer removeAll(dst)
				if err := app.Copy(dst); err != nil {
					fail("Copy: %v", err)
				}
				cp, err := open(dst, cf, meta, rapid.Bool().Draw(rt, "copyRO"))
				if err != nil {
					fail("open copy: %v", err)
				}
				verify(cp, "copy")
				cp.Close()
				checkSize("after Copy")
				ops = append(ops, "copy")
				c.Label("copy")
			},
			"": func(rt *rapid.T) { checkSize("invariant") },
		})
		verify(app, "final")
		if reopen(true) {
			c.Label("final-reopen")
		}
		if reopens > 1 {
			c.Label("reopen-mid-history")
		}
		if rewindThenAppend > 0 {
			c.Label("rewind-then-append")
		}
		if overflows > 0 {
			c.Label("record-crossed-chunk-end")
		}
		c.Descf("n=%d", len(entries))
		if reopens > 1 || rewindThenAppend > 0 {
			c.NonTrivial()
		}
	})
}
